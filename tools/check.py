#!/usr/bin/env python3
"""check.py <ID> <quick|thorough> [--replay FILE]

Decides one property: (1) the property's Lean theorems build and their axioms are audited,
(2) the model is tied to /repo's *current working tree* by the correspondence check on the
property's channels, (3) independent oracles evaluate the property on the implementation.
Verdict protocol: DESIGN.md section 8.
"""
import fcntl
import hashlib
import json
import os
import random
import re
import subprocess
import sys
import time
from collections import Counter

sys.path.insert(0, os.path.dirname(os.path.abspath(__file__)))
import engine  # noqa: E402
import gen  # noqa: E402

VERIF = engine.VERIF
LEAN = os.path.join(VERIF, "lean")
ALLOWED_AXIOMS = {"propext", "Classical.choice", "Quot.sound"}
ALL_FIELDS = ["D", "F", "R", "P", "T", "E", "roots", "wroots", "vals", "raws", "C", "W", "heap"]

# ---------------------------------------------------------------------------------------------
# per-property configuration: which streams exercise it, which observation channels its statement
# talks about (projection principle, DESIGN section 5), which oracle families judge it
PROPS = {
    "C01": dict(streams=["corpus", "contract", "exh2", "exh3s", "api", "giveup", "large"], fields=["D", "E", "roots"], oracles=["O1"],
                contract=True, title="no premature destruction", bigscen="O1"),
    "C02": dict(streams=["corpus", "contract", "weakheavy", "exh2", "script", "api", "giveup", "large", "panic"], fields=["D", "F", "E"], oracles=["O2"],
                contract=True, title="values die at most once; no access after release", weakraw="O2"),
    "C03": dict(streams=["corpus", "contract", "exh2", "exh3s", "api", "shallow", "large", "xl"], fields=["D"], oracles=["O3"], contract=True,
                title="orphaned group destroyed in full, synchronously", bigscen="O3"),
    "C04": dict(streams=["corpus", "contract", "weakheavy", "api", "exh2", "large", "xl"], fields=["F", "heapobjs"], oracles=["O4"],
                contract=True, title="destroyed objects return all memory", bigscen="O4", leakcheck=True),
    "C05": dict(streams=["corpus", "weakheavy", "contract", "script", "api"], fields=["R", "F", "W", "wroots", "roots"],
                oracles=["O5"], contract=True, title="Weak observes destruction exactly", bigscen="O5", weakraw="O5"),
    "C06": dict(streams=["corpus", "contract", "weakheavy", "raw", "api", "large"], fields=["heapcounts", "C", "W", "R", "roots", "wroots"],
                oracles=["O6"], contract=False, title="counts and identity exact", bigscen="O6"),
    "C07": dict(streams=["noadopt"], fields=["D", "R", "roots", "wroots", "vals", "raws", "C", "W", "heapcounts"], oracles=[],
                contract=False, title="without adoptions identical to std", std=True),
    "C08": dict(streams=["corpus", "contract", "raw", "exh2", "exh2e", "api", "giveup", "large"], fields=["heap"], oracles=["O8"], contract=False,
                title="bookkeeping exact, symmetric, no dead names"),
    "C09": dict(streams=["contract_full", "exh2"], fields=["D", "Dseq", "heapcounts"], oracles=[], contract=True,
                title="destroyed sets independent of layout", layout=True),
    "C10": dict(streams=["script", "corpus"], fields=[f for f in ALL_FIELDS if f != "T"], oracles=["O1", "O2", "O5", "O6", "O8"], contract=True,
                title="re-entrant destructors", bigscen="O5"),
    "C11": dict(streams=["panic", "shallow"], fields=["D", "P", "E", "F", "heapcounts", "roots"], oracles=["O1", "O2", "O5", "O6"],
                contract=True, title="panicking destructor", panicapi=True),
    "C12": dict(streams=["api", "raw", "shallow", "giveup", "corpus", "large"], fields=["heap", "R", "E", "D", "F", "vals", "roots", "raws", "C", "W"],
                oracles=["O1", "O2", "O4", "O8", "O12"], contract=False, title="consuming APIs on adopted objects"),
    "C13": dict(streams=["elide", "exh2e", "corpus"], fields=["D", "E", "heap", "roots"], oracles=["O1", "O2"], contract=False,
                title="elided unadopt", known="D4", o1_free=True),
    "C14": dict(streams=["contract", "raw", "noadopt", "api"], fields=["T0"], oracles=["O14"], contract=False,
                title="pay-as-you-go"),
    "C15": dict(streams=["contract", "exh2"], fields=["Tle"], oracles=[], contract=False, title="iterative and linear",
                bigring=True),
    "C16": dict(streams=["abort"], fields=["D", "E", "roots"], oracles=[], contract=True,
                title="cloning a dead handle aborts", abort=True),
}

SIZES = {  # stream -> (quick count, thorough count)
    "contract": (2500, 60000), "contract_full": (1500, 30000), "weakheavy": (1200, 30000), "raw": (1500, 40000),
    "api": (1500, 40000), "script": (1500, 40000), "panic": (1200, 30000), "elide": (1500, 30000),
    "noadopt": (1500, 40000), "abort": (150, 1500), "exh3s": (2500, 60000), "shallow": (1500, 30000),
    "giveup": (1500, 30000), "large": (150, 4000), "xl": (2, 24),
}


def load_corpus():
    cases = []
    d = os.path.join(VERIF, "corpus")
    for fn in sorted(os.listdir(d)):
        if not fn.endswith(".ops"):
            continue
        cur = None
        for l in open(os.path.join(d, fn)):
            l = l.strip()
            if not l or l.startswith("#"):
                continue
            if l.startswith("case "):
                cur = (f"corpus:{fn}:{l[5:]}", [])
                cases.append(cur)
            elif l == "end":
                cur = None
            elif cur is not None:
                cur[1].append(l)
    return cases


def make_stream(name, seed, tier):
    q, t = SIZES.get(name, (0, 0))
    n = q if tier == "quick" else t
    if tier == "escalate":
        # broken proof or correspondence: a wider but still bounded search for a failing input
        n = min(t, 6 * q)
        seed = seed + 1000003
        tier = "thorough" if name.startswith("exh") else "quick"
    if name == "corpus":
        return load_corpus()
    if name == "contract":
        return list(gen.stream_contract(seed, n, max_obj=5 if tier == "quick" else 7, max_mix=10 if tier == "quick" else 24))
    if name == "contract_full":
        return list(gen.stream_contract(seed + 17, n, max_obj=6, unrecorded_p=0.0))
    if name == "weakheavy":
        return list(gen.stream_contract(seed + 31, n, max_obj=4, max_mix=14))
    if name == "raw":
        return list(gen.stream_raw(seed, n))
    if name == "api":
        return list(gen.stream_api(seed, n))
    if name == "script":
        return (list(gen.stream_script(seed, n)) + list(gen.nested_chain_cases(seed, max(20, n // 15)))
                + list(gen.rescue_cases(seed, max(40, n // 15))))
    if name == "panic":
        return list(gen.stream_panic(seed, n))
    if name == "elide":
        return list(gen.stream_elide(seed, n))
    if name == "noadopt":
        return list(gen.stream_noadopt(seed, n))
    if name == "abort":
        return list(gen.stream_abort(seed, n))
    if name == "shallow":
        return list(gen.stream_shallow(seed, n))
    if name == "giveup":
        return list(gen.stream_giveup(seed, n))
    if name == "large":
        return list(gen.stream_large(seed, n))
    if name == "xl":
        return list(gen.xl_cases(seed, 2 if tier == "quick" else 24))
    if name == "exh2":
        cs = list(gen.exhaustive(2, 2)) + list(gen.exhaustive(2, 2, with_unrecorded=True)) + list(gen.exhaustive(2, 1, with_same=True))
        return cs
    if name == "exh2e":
        return list(gen.exhaustive_elide(2, 2))
    if name == "exh3s":
        rng = random.Random(seed)
        if tier == "quick":
            return list(gen.exhaustive(3, 1, limit=n, rng=rng))
        return list(gen.exhaustive(3, 1)) + list(gen.exhaustive(3, 2, limit=n, rng=rng))
    raise ValueError(name)


# ---------------------------------------------------------------------------------------------
def sh(cmd, cwd=None, timeout=3600, env=None):
    try:
        p = subprocess.run(cmd, cwd=cwd, shell=isinstance(cmd, str), stdout=subprocess.PIPE, stderr=subprocess.STDOUT,
                           timeout=timeout, env=env)
    except subprocess.TimeoutExpired as ex:
        out = (ex.stdout or b"").decode(errors="replace")
        return 124, out + f"\nTIMEOUT: did not finish within {timeout} s"
    return p.returncode, p.stdout.decode(errors="replace")


def build_all(pid, log):
    """returns (infra_ok, lean_ok, lean_msg)"""
    os.makedirs(os.path.join(VERIF, ".build"), exist_ok=True)
    lock = open(os.path.join(VERIF, ".build", "lock"), "w")
    fcntl.flock(lock, fcntl.LOCK_EX)
    try:
        env = dict(os.environ, CARGO_NET_OFFLINE="true")
        rc, out = sh("cargo +nightly build --release --offline 2>&1", cwd=os.path.join(VERIF, "harness"), env=env)
        out = out[-4000:]
        log.append(("cargo", rc, out[-2000:]))
        if rc != 0 or not os.path.exists(engine.HEXEC):
            return False, False, "harness build failed:\n" + out[-1500:]
        rc, out = sh(f"lake build driver invcheck 2>&1", cwd=LEAN)
        out = out[-3000:]
        log.append(("lake driver", rc, out[-2000:]))
        if rc != 0:
            return False, False, "driver build failed:\n" + out[-1500:]
        rc, out = sh(f"lake build Cactus.Props.{pid} 2>&1", cwd=LEAN)
        out = out[-6000:]
        log.append(("lake props", rc, out[-3000:]))
        lean_ok = rc == 0
        return True, lean_ok, out[-1500:]
    finally:
        fcntl.flock(lock, fcntl.LOCK_UN)


def lean_sources_of(pid):
    """project-local import closure of Cactus/Props/<pid>.lean"""
    seen, todo = [], [f"Cactus.Props.{pid}"]
    while todo:
        m = todo.pop()
        if m in seen:
            continue
        path = os.path.join(LEAN, m.replace(".", "/") + ".lean")
        if not os.path.exists(path):
            continue
        seen.append(m)
        for l in open(path):
            mm = re.match(r"\s*import\s+(Cactus[\w.]*)", l)
            if mm:
                todo.append(mm.group(1))
    return seen


def strip_comments(text):
    text = re.sub(r"/-.*?-/", "", text, flags=re.S)
    text = re.sub(r"--.*", "", text)
    return text


def audit(pid):
    """-> dict(ok, theorems, property_theorems, axioms, forbidden)"""
    mods = lean_sources_of(pid)
    forbidden = []
    n_thm = 0
    for m in mods:
        text = strip_comments(open(os.path.join(LEAN, m.replace(".", "/") + ".lean")).read())
        n_thm += len(re.findall(r"^\s*(?:@\[[^\]]*\]\s*)?(?:theorem|lemma)\s", text, flags=re.M))
        for pat in [r"\bsorry\b", r"\badmit\b", r"^\s*axiom\s", r"native_decide", r"bv_decide", r"implemented_by",
                    r"\bunsafe\s", r"maxHeartbeats\s+0\b"]:
            if re.search(pat, text, flags=re.M):
                forbidden.append(f"{m}:{pat}")
    ptext = strip_comments(open(os.path.join(LEAN, f"Cactus/Props/{pid}.lean")).read())
    names = re.findall(r"^\s*theorem\s+([\w.']+)", ptext, flags=re.M)
    # the property file must state its theorems itself (no alias whose statement lives in a lemma file) ...
    if "type_of%" in ptext:
        forbidden.append(f"Cactus.Props.{pid}:type_of%")
    # ... and must still contain every property theorem recorded in tools/expected_theorems.json
    try:
        expected = json.load(open(os.path.join(VERIF, "tools", "expected_theorems.json"))).get(pid, [])
    except OSError:
        expected = []
    for n in expected:
        if n not in names:
            forbidden.append(f"Cactus.Props.{pid}:missing-theorem:{n}")
    src = f"import Cactus.Props.{pid}\nopen Cactus\n" + "\n".join(f"#print axioms {n}" for n in names) + "\n"
    tmp = os.path.join(LEAN, f".audit_{pid}_{os.getpid()}.lean")
    open(tmp, "w").write(src)
    try:
        rc, out = sh(f"lake env lean {tmp}", cwd=LEAN)
    finally:
        os.unlink(tmp)
    axioms = set()
    per = {}
    for mm in re.finditer(r"'([\w.']+)' depends on axioms: \[([^\]]*)\]", out.replace("\n", " ")):
        ax = {a.strip() for a in mm.group(2).split(",") if a.strip()}
        per[mm.group(1)] = sorted(ax)
        axioms |= ax
    for mm in re.finditer(r"'([\w.']+)' does not depend on any axioms", out):
        per[mm.group(1)] = []
    bad_ax = sorted(axioms - ALLOWED_AXIOMS)
    ok = rc == 0 and not forbidden and not bad_ax and len(per) == len(names) and len(names) > 0
    return dict(ok=ok, theorems=n_thm, property_theorems=names, axioms=sorted(axioms), per_theorem=per,
                forbidden=forbidden, bad_axioms=bad_ax, modules=mods, raw=out[-800:] if not ok else "")


# ---------------------------------------------------------------------------------------------
def load_known():
    p = os.path.join(VERIF, "known_findings.json")
    if not os.path.exists(p):
        return []
    return json.load(open(p))["findings"]


def classify_known(pid, run, step_idx, fail, diffs_all):
    """Is this oracle failure an instance of a listed known finding?  Returns the finding id or None."""
    if not run.impl["steps"]:
        return None
    st = run.impl["steps"][min(step_idx, len(run.impl["steps"]) - 1)]
    orc = st["orc"] or {}
    model_agrees = not diffs_all
    for k in load_known():
        if k.get("status") != "known" or k["property"] != pid:
            continue
        m = k["match"]
        if not fail.startswith(m["oracle"]):
            continue
        if m.get("needs_model_agreement", True) and not model_agrees:
            continue
        if "broken_by" in m and orc.get("broken_by") not in m["broken_by"]:
            continue
        if "zero_path" in m and orc.get("zx") != ("1" if m["zero_path"] else "0"):
            continue
        if m.get("dropped_target_destroyed"):
            # the object whose handle the op dropped was itself destroyed by the op (zero-count path)
            if not st["obs"] or not st["obs"]["D"]:
                continue
        return k["id"]
    return None


def nontrivial(run):
    """a case is non-trivial if some op destroyed ≥2 values at once or ran a trace"""
    for st in run.impl["steps"]:
        o = st.get("obs")
        if not o:
            continue
        if o["D"].count(",") >= 1 or not o["T"].startswith("0/"):
            return True
    return False


def case_key(run):
    return hashlib.sha1("\n".join(run.explicit).encode()).hexdigest()


def write_replay(pid, seed, kind, run, detail):
    os.makedirs(os.path.join(VERIF, "replays"), exist_ok=True)
    path = os.path.join(VERIF, "replays", f"{pid}-{seed}-{kind}.json")
    rc, commit = sh("git -C /repo rev-parse HEAD")
    rc, dirty = sh("git -C /repo status --porcelain")
    doc = dict(property=pid, kind=kind, seed=seed, repo_commit=commit.strip(), repo_dirty=bool(dirty.strip()), detail=detail)
    if run is not None:
        doc.update(case=run.name, ops=run.explicit,
                   impl=[dict(op=s["op"], hint=s["hint"], obs=s["obs"], orc=(s["orc"] or {}).get("fails"), stop=s["stop"])
                         for s in run.impl["steps"]],
                   model=[dict(op=o, obs=m) for o, m in run.model], crash=run.crash)
    json.dump(doc, open(path, "w"), indent=1)
    return path


def shrink(pid, cfg, run, pred):
    """delta-debug the op list of `run` while `pred(newrun)` keeps holding"""
    ops = list(run.ops)
    best = run
    budget = 200
    deadline = time.time() + 60          # shrinking is a convenience: bounded in attempts and in wall time
    chunk = max(1, len(ops) // 2)
    while chunk >= 1 and budget > 0 and time.time() < deadline:
        i = 0
        progressed = False
        while i < len(ops) and budget > 0 and time.time() < deadline:
            cand = ops[:i] + ops[i + chunk:]
            budget -= 1
            try:
                r = engine.pipeline([(run.name, cand)])[0]
                if pred(r):
                    ops = cand
                    best = r
                    progressed = True
                    continue
            except Exception:
                pass
            i += chunk
        if not progressed:
            chunk //= 2
    return best


def judge(pid, cfg, runs):
    """returns dict(diff_runs, oracle_runs, known_hits, stats)"""
    fields = cfg["fields"]
    diff_runs, oracle_runs, known_hits = [], [], Counter()
    for r in runs:
        d = engine.compare(r, fields)
        if r.crash is not None and not d:
            d = [(len(r.impl["steps"]), "crash", "-", f"rc={r.crash}")]
            r.diffs = d
        if d:
            diff_runs.append(r)
        o = engine.oracle_fails(r, cfg["oracles"], require_contract=cfg["contract"],
                                o1_needs_contract=not cfg.get("o1_free")) if cfg["oracles"] else []
        # library panics / canary trips / double frees are oracle failures of C02-type channels
        if not o and "E" in fields:
            for i, st in enumerate(r.impl["steps"]):
                ob = st.get("obs")
                if ob and ob["E"] != "-" and i < len(r.model) and r.model[i][1]["E"] == "-":
                    orc = st.get("orc") or {}
                    if not cfg["contract"] or orc.get("contract") == "1":
                        o = [(i, "OE:" + ob["E"])]
                        r.oracle_fails = o
                    break
        if not o and r.crash is not None and "E" in fields:
            # the implementation process died on a history the model runs without error
            i = len([st for st in r.impl["steps"] if st.get("obs") is not None])
            o = [(max(0, min(i, len(r.impl["steps"]) - 1)) if r.impl["steps"] else 0, f"OE:process-died-rc={r.crash}-at-op-{i}")]
            r.oracle_fails = o
        if o:
            alld = engine.compare(r, ["D", "F", "E", "heap", "roots"])
            r.diffs = d
            k = classify_known(pid, r, o[0][0], o[0][1], alld)
            if k:
                known_hits[k] += 1
            else:
                oracle_runs.append(r)
    return dict(diff_runs=diff_runs, oracle_runs=oracle_runs, known_hits=known_hits)


def leak_check(runs):
    """C04: when the model says every allocation was released at the end of the case, the process
    must hold exactly the bytes it held before the case"""
    bad = []
    n = 0
    for r in runs:
        end = r.impl.get("end")
        if not end or not r.model or r.crash is not None:
            continue
        if len(r.model) != len(r.impl["steps"]):
            continue
        last = r.model[-1][1]
        if last["heap"] == "" and last["E"] == "-" and end.get("stopped") == "0" and end.get("panicked") == "0":
            n += 1
            if end.get("leak_bytes") != "0" or end.get("live_rcbox") != "0":
                bad.append((r, f"leak_bytes={end.get('leak_bytes')} live_rcbox={end.get('live_rcbox')}"))
    return n, bad


def std_differential(cases):
    """C07: the same programs on std::rc; compare everything observable through the shared API"""
    p1 = engine.run_driver(cases, with_cleanup=True)
    explicit = []
    for name, ops in cases:
        ex = []
        for optext, obs in p1[name]:
            if obs["E"] != "-":
                break
            ex.append(optext)
        explicit.append((name, ex))
    a = engine.run_harness(explicit, "cactus")
    b = engine.run_harness(explicit, "std")
    bad = []
    for name, ex in explicit:
        ca, cb = a[name], b[name]
        if ca.get("crash") is not None or cb.get("crash") is not None:
            bad.append((name, ex, "crash", str(ca.get("crash")), str(cb.get("crash"))))
            continue
        for i, (sa, sb) in enumerate(zip(ca["steps"], cb["steps"])):
            oa, ob = sa["obs"], sb["obs"]
            if oa is None or ob is None:
                if (oa is None) != (ob is None):
                    bad.append((name, ex[:i + 1], "stop", str(sa["stop"]), str(sb["stop"])))
                break
            diff = [f for f in ("Dseq", "R", "P", "E", "roots", "wroots", "vals", "raws", "C", "W") if oa[f] != ob[f]]
            if diff:
                bad.append((name, ex[:i + 1], diff[0], oa[diff[0]], ob[diff[0]]))
                break
    return len(explicit), bad


def layout_check(cases, seed):
    """C09: replay each history under address perturbations (the harness interleaves dummy
    allocations of the RcBox size class): per-op destroyed sets and counts must not change; and
    the model run with a reversed hint must give the same sets"""
    base = engine.pipeline(cases)
    bad = []
    n = 0
    env_backup = os.environ.get("HEXEC_PERTURB")
    for pert in (1, 2, 3, 4, 5, 6):
        os.environ["HEXEC_PERTURB"] = str(seed * 7 + pert)
        other = engine.run_harness([(r.name, r.explicit) for r in base], "cactus")
        for r in base:
            o = other[r.name]
            n += 1
            for i, st in enumerate(r.impl["steps"]):
                if i >= len(o["steps"]) or st["obs"] is None or o["steps"][i]["obs"] is None:
                    break
                a, b = st["obs"], o["steps"][i]["obs"]
                strip = lambda h: " ".join(":".join(x.split(":")[:3]) for x in h.split(" ") if x)
                if a["D"] != b["D"] or a["F"] != b["F"] or strip(a["heap"]) != strip(b["heap"]) or a["R"] != b["R"]:
                    bad.append((r, i, f"perturbation {pert}: D {a['D']} vs {b['D']}"))
                    break
    if env_backup is None:
        os.environ.pop("HEXEC_PERTURB", None)
    else:
        os.environ["HEXEC_PERTURB"] = env_backup
    # model side: reversed hints
    rev = []
    for r in base:
        lines = []
        for i, optext in enumerate(r.explicit):
            h = r.impl["steps"][i]["hint"].split() if i < len(r.impl["steps"]) else []
            lines.append(f"{optext} | {' '.join(reversed(h))}")
        rev.append((r.name, lines))
    m2 = engine.run_driver(rev, with_cleanup=False)
    for r in base:
        for i, (optext, mobs) in enumerate(r.model):
            if i >= len(m2[r.name]):
                break
            o2 = m2[r.name][i][1]
            strip = lambda h: " ".join(":".join(x.split(":")[:3]) for x in h.split(" ") if x)
            if mobs["D"] != o2["D"] or strip(mobs["heap"]) != strip(o2["heap"]):
                bad.append((r, i, f"model depends on hint: D {mobs['D']} vs {o2['D']}"))
                break
    return base, n, bad


def abort_check(cases):
    """C16: run every case whose model run ends in `abort` in its own process; the process must die
    by SIGILL/SIGABRT at exactly that op; cases without abort must match the model"""
    p1 = engine.run_driver(cases, with_cleanup=True)
    n_abort, bad, other = 0, [], []
    for name, ops in cases:
        seq = p1[name]
        ex, perr = [], None
        for optext, obs in seq:
            if obs["E"] != "-":
                perr = (optext, obs["E"])
                break
            ex.append(optext)
        if perr and perr[1] == "abort":
            n_abort += 1
            full = ex + [perr[0]]
            res = engine.run_harness([(name, full)], "cactus")[name]
            rc = res.get("crash")
            done = len([s for s in res["steps"] if s["obs"] is not None])
            if rc not in (-4, -6):
                bad.append((name, full, f"expected abort at op {len(ex)}, process rc={rc}, ops completed={done}"))
            elif done != len(ex):
                bad.append((name, full, f"abort expected at op {len(ex)} but process died after {done} ops"))
        else:
            other.append((name, ops))
    return n_abort, bad, other


def bigring_check(tier):
    # a call that needs well under a second with linear code gets minutes: running into the limit is itself the finding
    BIG_TIMEOUT = 240 if tier == "quick" else 1800
    sizes = [1000, 20000] if tier == "quick" else [1000, 20000, 100000, 400000]
    out = []
    bad = []
    for shape in ("ring", "chords", "selfmix"):
        for n in sizes:
            rc, o = sh([engine.HEXEC, "bigring", shape, str(n)], timeout=BIG_TIMEOUT)
            line = o.strip().split("\n")[-1] if o.strip() else ""
            out.append(f"{shape} n={n}: {line}")
            if rc != 0 or "ok" not in line:
                bad.append(f"{shape} n={n}: rc={rc} {line}")
    # wide frontier (hub and spokes): the counters cannot see super-linear work done on the
    # work list itself, so elapsed time is compared with a ring of the same number of adoptions
    import re as _re
    hn = 30000 if tier == "quick" else 60000
    times = {}
    for shape, n in (("hub", hn), ("hub", 4 * hn)):
        rc, o = sh([engine.HEXEC, "bigring", shape, str(n)], timeout=BIG_TIMEOUT)
        line = o.strip().split("\n")[-1] if o.strip() else ""
        out.append(f"{shape} n={n}: {line}")
        mm = _re.search(r"secs=([0-9.]+)", line)
        times[n] = float(mm.group(1)) if mm else None
        if rc != 0 or "ok" not in line:
            bad.append(f"{shape} n={n}: rc={rc} {line}")
    if times.get(hn) is not None and times.get(4 * hn) is not None:
        # scaling test: 4x the objects and adoptions may cost about 4x the time; quadratic work costs 16x.
        # Noise (a loaded machine) only ever adds time: before blaming the code, measure the big hub twice more and keep
        # the minimum (an inflated small measurement only makes the test more lenient).
        for _ in range(2):
            if times[4 * hn] <= 8 * times[hn] + 0.3 or times[4 * hn] > 4 * (8 * times[hn] + 0.3):
                break          # within the bound, or so far beyond it that noise cannot be the reason
            rc, o = sh([engine.HEXEC, "bigring", "hub", str(4 * hn)], timeout=BIG_TIMEOUT)
            mm = _re.search(r"secs=([0-9.]+)", o.strip().split("\n")[-1] if o.strip() else "")
            if mm:
                times[4 * hn] = min(times[4 * hn], float(mm.group(1)))
        if times[4 * hn] > 8 * times[hn] + 0.3:
            bad.append(f"hub of {4*hn} spokes took {times[4*hn]:.2f}s but a hub of {hn} spokes {times[hn]:.2f}s: super-linear")
    rc, o = sh([engine.HEXEC, "bigring", "clique", "300" if tier == "quick" else "600"], timeout=BIG_TIMEOUT)
    line = o.strip().split("\n")[-1] if o.strip() else ""
    out.append(f"clique: {line}")
    if rc != 0 or "ok" not in line:
        bad.append(f"clique: rc={rc} {line}")
    return out, bad


# ---------------------------------------------------------------------------------------------
def main():
    pid = sys.argv[1]
    tier = sys.argv[2] if len(sys.argv) > 2 else os.environ.get("VERIF_TIER", "quick")
    seed = int(os.environ.get("VERIF_SEED", "1"))
    replay = None
    if "--replay" in sys.argv:
        replay = sys.argv[sys.argv.index("--replay") + 1]
    cfg = PROPS[pid]
    t0 = time.time()
    log = []
    if replay is None:
        # replay files of an earlier run of this check with this seed are stale now
        import glob as _glob
        for f in _glob.glob(os.path.join(VERIF, "replays", f"{pid}-{seed}-*.json")):
            try:
                os.remove(f)
            except OSError:
                pass
    infra_ok, lean_ok, lean_msg = build_all(pid, log)
    if not infra_ok:
        print(f"INFRASTRUCTURE-FAILURE property={pid}: {lean_msg[-600:]}")
        sys.exit(2)
    aud = audit(pid) if lean_ok else dict(ok=False, theorems=0, property_theorems=[], axioms=[], forbidden=[],
                                          bad_axioms=[], modules=[], raw=lean_msg, per_theorem={})
    proof_ok = lean_ok and aud["ok"]
    recheck = None
    if tier == "thorough" and proof_ok:
        # independent re-check of every compiled module of the property's import closure
        import concurrent.futures as _cf
        def _lc(m):
            rc_, out_ = sh(f"lake env leanchecker {m}", cwd=LEAN, timeout=3600)
            return m, rc_, out_[-300:]
        with _cf.ThreadPoolExecutor(8) as ex:
            res_lc = list(ex.map(_lc, aud["modules"]))
        bad_lc = [(m, o) for m, rc_, o in res_lc if rc_ != 0]
        recheck = dict(modules=len(res_lc), failed=[m for m, _ in bad_lc])
        if bad_lc:
            proof_ok = False
            lean_msg = "leanchecker failed: " + repr(bad_lc[:3])

    if replay:
        doc = json.load(open(replay))
        ops = doc.get("ops") or (doc.get("detail") or {}).get("ops") or []
        if ops and isinstance(ops[0], str) and ops[0].startswith("hexec "):
            # a scenario mode of the harness is the failing input: run it again on the current tree
            rc, o = sh([engine.HEXEC] + ops[0].split()[1:], timeout=1800)
            last = o.strip().split("\n")[-1] if o.strip() else f"process died rc={rc}"
            print(f"replay of `{ops[0]}`: {last}")
            sys.exit(0 if rc == 0 and last.startswith("ok") else 1)
        if not ops:
            # no failing input was recorded (broken proof obligation): the replay is the proof check itself
            print(f"replay of a proof obligation: proof_ok={proof_ok} {'' if proof_ok else lean_msg[-600:]}")
            sys.exit(0 if proof_ok else 1)
        runs = engine.pipeline([(doc.get("case", "replay"), ops)])
        res = judge(pid, cfg, runs)
        for r in runs:
            print("ops:", r.explicit)
            print("diffs:", r.diffs, "oracle:", r.oracle_fails, "crash:", r.crash)
        bad = res["diff_runs"] or res["oracle_runs"]
        sys.exit(1 if bad else 0)

    # ---- streams --------------------------------------------------------------------------
    stats = Counter()
    all_runs = []
    extra_fail = []   # (kind, run or None, message)
    extra_cov = {}
    known_lines = []

    def run_streams(tier_):
        runs = []
        for sname in cfg["streams"]:
            cases = make_stream(sname, seed, tier_)
            if not cases:
                continue
            if cfg.get("abort") and sname == "abort":
                n_abort, badl, other = abort_check(cases)
                extra_cov["abort_cases"] = extra_cov.get("abort_cases", 0) + n_abort
                for name, full, msg in badl:
                    extra_fail.append(("oracle", None, f"{name}: {msg}", full))
                cases = other
            rs = engine.pipeline(cases)
            stats[f"cases:{sname}"] += len(rs)
            runs.extend(rs)
        return runs

    all_runs = run_streams(tier)
    res = judge(pid, cfg, all_runs)

    if cfg.get("leakcheck"):
        n, bad = leak_check(all_runs)
        extra_cov["end_of_history_leak_checks"] = n
        for r, msg in bad:
            extra_fail.append(("oracle", r, "O4:" + msg, r.explicit))
    if cfg.get("std"):
        cases = make_stream("noadopt", seed, tier)
        n, bad = std_differential(cases)
        extra_cov["std_differential_programs"] = n
        for name, ex, f, a, b in bad:
            extra_fail.append(("oracle", None, f"O7:{name}: field {f}: cactusref={a} std={b}", ex))
    if cfg.get("std"):
        rc, o = sh([engine.HEXEC, "apidiff", "20" if tier == "quick" else "400"], timeout=1800)
        line = o.strip().split("\n")[-1] if o.strip() else ""
        extra_cov["unmodelled_api_differential"] = line
        if rc != 0 or not line.startswith("ok"):
            extra_fail.append(("oracle", None, "O7:unmodelled shared API differs from std: " + line,
                               ["hexec apidiff " + ("20" if tier == "quick" else "400"), line]))
    if cfg.get("leakcheck") or cfg.get("weakraw"):
        # Weak handles through into_raw/from_raw (live, dead, and the dangling sentinel of Weak::new): a scenario
        # on the implementation only; a crash of the process is a failure with the scenario as the replay
        rc, o = sh([engine.HEXEC, "weakraw"], timeout=600)
        line = o.strip().split("\n")[-1] if o.strip() else ""
        extra_cov["weak_raw_round_trip_scenarios"] = line or f"process died rc={rc}"
        if rc != 0 or not line.startswith("ok"):
            lab = cfg.get("weakraw") or "O4"
            extra_fail.append(("oracle", None, f"{lab}:weakraw scenario: " + (line or f"process died rc={rc}"), ["hexec weakraw", line]))
    if cfg.get("bigscen"):
        # scenario families far outside the sizes of the model-driven streams (70 000 handles, every held position of
        # rings of hundreds of objects, 16 KiB payloads), implementation-only oracles
        rc, o = sh([engine.HEXEC, "bigscen", pid], timeout=900)
        line = o.strip().split("\n")[-1] if o.strip() else ""
        extra_cov["big_scenarios"] = line or f"process died rc={rc}"
        if rc != 0 or not line.startswith("ok"):
            extra_fail.append(("oracle", None, f"{cfg['bigscen']}:bigscen: " + (line or f"process died rc={rc}"), [f"hexec bigscen {pid}", line]))
    if cfg.get("panicapi"):
        rc, o = sh([engine.HEXEC, "panicapi"], timeout=600)
        line = o.strip().split("\n")[-1] if o.strip() else ""
        extra_cov["make_mut_panic_fault_enumeration"] = line
        if rc != 0 or not line.startswith("ok"):
            extra_fail.append(("oracle", None, "O11:" + line, ["hexec panicapi", line]))
    if cfg.get("layout"):
        cases = make_stream("contract_full", seed, tier)[: (800 if tier == "quick" else 8000)]
        base, n, bad = layout_check(cases, seed)
        extra_cov["layout_replays"] = n
        for r, i, msg in bad:
            extra_fail.append(("oracle", r, f"O9:{msg} at op {i}", r.explicit[: i + 1]))
    if cfg.get("bigring"):
        out, bad = bigring_check(tier)
        extra_cov["bigring"] = out
        for msg in bad:
            extra_fail.append(("oracle", None, "O15:" + msg, ["hexec bigring " + " ".join(msg.replace("n=", "").replace(":", "").split()[:2]), msg]))

    # ---- known findings: witnesses must still fail for the line to be printed ---------------
    for k in load_known():
        if k["property"] != pid or k.get("status") != "known":
            continue
        wit_ok = False
        for wf in k.get("witnesses", []):
            wcases = [c for c in load_corpus() if c[0].startswith(f"corpus:{wf}:")]
            for r in engine.pipeline(wcases):
                fails = engine.oracle_fails(r, [k["match"]["oracle"]], require_contract=False, o1_needs_contract=False)
                if fails:
                    wit_ok = True
        if wit_ok or res["known_hits"].get(k["id"]):
            known_lines.append(f"KNOWN-FINDING: property={pid} {k['id']}: {k['what']}")

    # ---- verdict ----------------------------------------------------------------------------
    violations = 0
    out_lines = []
    oracle_bad = [("oracle", r, r.oracle_fails[0][1], r.explicit) for r in res["oracle_runs"]] + \
                 [e for e in extra_fail if e[0] == "oracle"]
    if oracle_bad:
        oracle_bad.sort(key=lambda e: len(e[3]) if e[3] else 0)
        kind, r, msg, ops = oracle_bad[0]
        if r is not None and r.oracle_fails:
            want = r.oracle_fails[0][1][:3]

            def pred(nr, want=want):
                fs = engine.oracle_fails(nr, cfg["oracles"] or ["O"], require_contract=cfg["contract"],
                                         o1_needs_contract=not cfg.get("o1_free"))
                return bool(fs) and fs[0][1].startswith(want) and not classify_known(pid, nr, fs[0][0], fs[0][1], engine.compare(nr, ["D", "F", "E", "heap", "roots"]))
            try:
                r = shrink(pid, cfg, r, pred)
            except Exception:
                pass
        path = write_replay(pid, seed, "oracle", r, dict(message=msg, ops=ops, n_failing=len(oracle_bad)))
        out_lines.append(f"VIOLATION property={pid} replay={path}")
        violations = len(oracle_bad)
    elif not proof_ok or res["diff_runs"]:
        # proof obligation or correspondence broken; escalate the search for a failing input
        esc = []
        if tier == "quick":
            try:
                esc = run_streams("escalate")
            except Exception as ex:  # noqa
                esc = []
            res2 = judge(pid, cfg, esc)
            if res2["oracle_runs"]:
                r = min(res2["oracle_runs"], key=lambda x: len(x.ops))
                path = write_replay(pid, seed, "oracle", r, dict(message=r.oracle_fails[0][1], escalated=True))
                out_lines.append(f"VIOLATION property={pid} replay={path}")
                violations = len(res2["oracle_runs"])
        if not out_lines:
            if not proof_ok:
                detail = dict(broken="proof", theorem_file=f"lean/Cactus/Props/{pid}.lean", lean_ok=lean_ok,
                              audit={k: aud[k] for k in ("forbidden", "bad_axioms", "raw")}, message=lean_msg[-1500:])
                r = None
            else:
                r = min(res["diff_runs"], key=lambda x: len(x.ops))
                d0 = r.diffs[0]

                def pred2(nr):
                    return bool(engine.compare(nr, cfg["fields"]))
                try:
                    r = shrink(pid, cfg, r, pred2)
                except Exception:
                    pass
                d0 = r.diffs[0] if r.diffs else d0
                detail = dict(broken="correspondence", channel=d0[1], op_index=d0[0], model=d0[2], implementation=d0[3],
                              n_diverging_cases=len(res["diff_runs"]),
                              theorems_no_longer_about_this_code=aud.get("property_theorems", []))
            path = write_replay(pid, seed, "nofail", r, detail)
            out_lines.append(f"VIOLATION property={pid} replay={path} no-failing-input-found")
            violations = 1

    # ---- evidence ---------------------------------------------------------------------------
    distinct = {}
    opkinds = Counter()
    paths = Counter()
    for r in all_runs:
        if nontrivial(r):
            distinct[case_key(r)] = r
        for st in r.impl["steps"]:
            opkinds[st["op"].split(" ")[0]] += 1
            o = st.get("obs")
            if o:
                nd = len([x for x in o["D"].split(",") if x])
                paths["ops_destroying_0" if nd == 0 else "ops_destroying_1" if nd == 1 else "ops_destroying_group"] += 1
                if not o["T"].startswith("0/"):
                    paths["ops_with_trace"] += 1
                if o["P"] == "1":
                    paths["ops_with_panic"] += 1
    samples = [dict(case=r.name, ops=r.explicit[:40]) for r in list(distinct.values())[:3]] or \
              [dict(case=r.name, ops=r.explicit[:40]) for r in all_runs[:2]]
    n_obl = aud["theorems"]
    evidence = dict(
        property_id=pid, tier=tier, seed=seed, level="proof",
        coverage=dict(
            obligations=n_obl, discharged=n_obl if proof_ok else 0,
            checker_cmd=f"cd /verif/lean && lake build Cactus.Props.{pid} && lake env lean <#print axioms of {len(aud['property_theorems'])} property theorems>",
            trusted_base=["Lean 4.33 kernel", "axioms: " + ", ".join(aud["axioms"]) if aud["axioms"] else "no axioms",
                          "hand-written model Cactus/Model/*.lean tied to /repo by the differential correspondence check (tools/engine.py, harness/)",
                          "Rust shadow-ledger oracles in harness/src/core.rs", "hooks H1-H3 under cfg(cactusref_verif)"],
            property_theorems=aud["property_theorems"], axioms_per_theorem=aud.get("per_theorem", {}),
            lean_modules=aud["modules"],
            evaluations=len(all_runs), distinct_nontrivial=len(distinct),
            rule="cases come from the streams listed in 'streams' (tools/gen.py, all random choices from VERIF_SEED); a case is "
                 "non-trivial if some operation destroyed two or more values at once or ran a reachability trace; distinct = distinct explicit op lists",
            samples=samples,
            traces_validated_against_impl=len(all_runs), diverging_cases=len(res["diff_runs"]),
            channels_compared=cfg["fields"],
            oracles=cfg["oracles"] + [o for k, o in (("std", "O7"), ("layout", "O9"), ("panicapi", "O11"), ("bigring", "O15"),
                                                       ("abort", "O16"), ("leakcheck", "O4-bytes"), ("bigscen", "bigscen")) if cfg.get(k)]
                    + (["weakraw:" + cfg["weakraw"]] if cfg.get("weakraw") else []),
            streams=dict(stats),
            op_distribution=dict(opkinds), outcome_distribution=dict(paths),
            known_finding_instances=dict(res["known_hits"]), extra=extra_cov, leanchecker=recheck,
        ),
        assumptions=["the theorems are about the Lean model; the model is validated against the implementation only on the histories run",
                     "properties with hypothesis P (adoption contract) are judged by oracles only on histories that respect it"],
        wall_s=round(time.time() - t0, 2), violations=violations,
    )
    os.makedirs(os.path.join(VERIF, "evidence"), exist_ok=True)
    json.dump(evidence, open(os.path.join(VERIF, "evidence", f"{pid}.json"), "w"), indent=1)
    for l in known_lines:
        print(l)
    for l in out_lines:
        print(l)
    print(f"{pid} {tier}: proof_ok={proof_ok} theorems={n_obl} cases={len(all_runs)} nontrivial={len(distinct)} "
          f"diverging={len(res['diff_runs'])} oracle_failures={len(oracle_bad)} known={dict(res['known_hits'])} wall={time.time()-t0:.1f}s")
    sys.exit(1 if out_lines else 0)


if __name__ == "__main__":
    main()
