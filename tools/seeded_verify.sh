#!/bin/sh
# usage: seeded_verify.sh <ID> : verify a red-team result: patch /tmp/mut/out_<ID>/patch.diff applied to a clean
# checkout in /tmp/mut/<ID>; suite must stay green, demo must fail with the patch and pass without
set -u
P=$1; WT=/tmp/mut/$P; OUT=/tmp/mut/out_$P
cd $WT || exit 2
git checkout -q -- . ; git clean -qfd tests src 2>/dev/null
git apply $OUT/patch.diff || { echo "patch does not apply"; exit 2; }
echo "== patch: $(git diff --stat | tail -1)"
echo "== suite with patch:"; cargo test --offline 2>&1 | grep -E "test result|FAILED|error" | sort | uniq -c | head
echo "== hooks build:"; RUSTFLAGS="--cfg cactusref_verif" cargo build --offline 2>&1 | grep -E "^error|Finished"
cp $OUT/demo.rs tests/demo_$P.rs
echo "== demo with patch:"; cargo test --offline --test demo_$P 2>&1 | grep -E "test result|panicked|FAILED|signal|error" | head -5
git apply -R $OUT/patch.diff
echo "== demo without patch:"; cargo test --offline --test demo_$P 2>&1 | grep -E "test result|panicked|FAILED|signal|error" | head -5
rm tests/demo_$P.rs
