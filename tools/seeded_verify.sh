#!/bin/sh
# usage: seeded_verify.sh <ID> : verify a red-team result in /tmp/mut/<ID> (patch applied there) and /tmp/mut/out_<ID>
set -u
P=$1; WT=/tmp/mut/$P; OUT=/tmp/mut/out_$P
cd $WT || exit 2
git diff > /tmp/mut/check_$P.diff
echo "== patch: $(git diff --stat | tail -1)"
echo "== suite with patch:"; cargo test --offline 2>&1 | grep -E "test result|FAILED|error" | sort | uniq -c | head
echo "== hooks build:"; RUSTFLAGS="--cfg cactusref_verif" cargo build --offline 2>&1 | grep -E "^error|Finished"
cp $OUT/demo.rs tests/demo_$P.rs
echo "== demo with patch:"; cargo test --offline --test demo_$P 2>&1 | grep -E "test result|panicked|FAILED|signal|error" | head -5
git stash -q
echo "== demo without patch:"; cargo test --offline --test demo_$P 2>&1 | grep -E "test result|panicked|FAILED|signal|error" | head -5
git stash pop -q
rm tests/demo_$P.rs
