#!/bin/sh
# usage: tools/seeded_verify.sh <seeded-id>
# Re-verifies a seeded change from /verif/seeded/<id> on a scratch worktree of /repo's HEAD (created under
# /tmp and removed again): the patch applies, the crate builds with and without the hook cfg, the
# repository's own suite stays green with the patch, and the demonstration (demo.rs, copied to tests/)
# fails with the patch and passes without it.
set -u
id="$1"; dir="/verif/seeded/$id"
[ -f "$dir/patch.diff" ] || { echo "no such seeded change: $id"; exit 2; }
WT=$(mktemp -d /tmp/seedverify.XXXXXX); rmdir "$WT"
git -C /repo worktree add -q --detach "$WT" HEAD || exit 2
trap 'git -C /repo worktree remove --force "$WT" >/dev/null 2>&1; rm -rf "$WT"' EXIT
cd "$WT" || exit 2
export CARGO_NET_OFFLINE=true CARGO_TARGET_DIR="$WT/target"
git apply "$dir/patch.diff" || { echo "patch does not apply"; exit 2; }
echo "== patch: $(git diff --stat | tail -1)"
echo "== suite with patch:"; cargo test --offline 2>&1 | grep -E "test result|FAILED|^error" | sort | uniq -c | head
echo "== hooks build:"; RUSTFLAGS="--cfg cactusref_verif" cargo build --offline 2>&1 | grep -E "^error|Finished"
if [ -f "$dir/demo.rs" ]; then
  cp "$dir/demo.rs" tests/demo_seeded.rs
  echo "== demo with patch (must fail):"; cargo test --offline --test demo_seeded 2>&1 | grep -E "test result|panicked|FAILED|signal|^error" | head -5
  git apply -R "$dir/patch.diff"
  echo "== demo without patch (must pass):"; cargo test --offline --test demo_seeded 2>&1 | grep -E "test result|panicked|FAILED|signal|^error" | head -5
fi
