#!/bin/sh
# usage: tools/patch_run.sh <absolute patch file> [property ids...]
# applies the patch to /repo's working tree, runs the quick checks (default: all 16),
# restores /repo, prints one line per check.  Used for seeded breakages and harmless rewrites.
set -u
patch="$1"; shift
props="$*"
[ -n "$props" ] || props="C01 C02 C03 C04 C05 C06 C07 C08 C09 C10 C11 C12 C13 C14 C15 C16"
git -C /repo diff --quiet || { echo "/repo working tree not clean"; exit 2; }
rm -rf /verif/.build/evidence_saved; cp -a /verif/evidence /verif/.build/evidence_saved
git -C /repo apply "$patch" || { echo "patch does not apply"; exit 2; }
for p in $props; do
  out=$(cd /verif && ./check.sh "$p" quick 2>&1); rc=$?
  echo "$p rc=$rc $(echo "$out" | grep -E '^VIOLATION' | head -1)"
done
git -C /repo checkout -- .
# evidence written while the patch was applied describes the patched tree: put the previous files back
rm -rf /verif/evidence; mv /verif/.build/evidence_saved /verif/evidence
(cd /verif/harness && cargo +nightly build --release --offline >/dev/null 2>&1)
