#!/bin/sh
# usage: tools/seeded_run.sh <seeded-id> [property ids...]
# applies /verif/seeded/<id>/patch.diff to /repo's working tree, runs the named quick checks
# (default: the property recorded in meta.json), restores /repo, prints one line per check.
set -u
id="$1"; shift
dir="/verif/seeded/$id"
[ -f "$dir/patch.diff" ] || { echo "no patch for $id"; exit 2; }
props="$*"
[ -n "$props" ] || props=$(python3 -c "import json;print(' '.join(json.load(open('$dir/meta.json'))['expected_checks']))")
git -C /repo diff --quiet || { echo "/repo working tree not clean"; exit 2; }
rm -rf /verif/.build/evidence_saved; cp -a /verif/evidence /verif/.build/evidence_saved
git -C /repo apply "$dir/patch.diff" || { echo "patch does not apply"; exit 2; }
for p in $props; do
  out=$(cd /verif && ./check.sh "$p" quick 2>&1); rc=$?
  echo "$id $p rc=$rc $(echo "$out" | grep -E '^VIOLATION' | head -1)"
  echo "$out" | tail -1
done
git -C /repo checkout -- .
# evidence written while the patch was applied describes the patched tree: put the previous files back
rm -rf /verif/evidence; mv /verif/.build/evidence_saved /verif/evidence
(cd /verif/harness && cargo +nightly build --release --offline >/dev/null 2>&1)
